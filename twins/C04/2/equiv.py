"""Equivalence digest for C04 refactoring 2 (flag-terminated loop, _euler_step extracted, single if/elif chain).

Prints a deterministic digest of trajectories / range errors for varied shots and
limit configurations.  Must print the same text with and without the patch.
"""
import hashlib
import math
import warnings

warnings.simplefilter("ignore")

from py_ballisticcalc import (Calculator, InterfaceConfigDict, DragModel, TableG1, TableG7, Weight, Distance,
                              Ammo, Velocity, Weapon, Shot, Angular, Atmo, Wind, RangeError, Unit,
                              Temperature, Pressure)
from py_ballisticcalc.exceptions import RangeError as RangeError2

assert RangeError is RangeError2


def fval(v):
    if hasattr(v, "raw_value"):
        return type(v).__name__ + ":" + repr(float(v.raw_value)) + ":" + repr(v.units)
    return repr(v)


def row_text(row):
    return "|".join(fval(v) for v in row)


def digest(rows):
    h = hashlib.sha256()
    for r in rows:
        h.update(row_text(r).encode())
        h.update(b"\n")
    return h.hexdigest()


def make_shot(mv_fps=2600.0, angle_deg=0.0, altitude_ft=0.0, table=TableG7, bc=0.223, winds=None,
              look_deg=0.0, twist=12.0, sight_in=2.0):
    dm = DragModel(bc, table, Weight.Grain(168), Distance.Inch(0.308), Distance.Inch(1.282))
    ammo = Ammo(dm, Velocity.FPS(mv_fps))
    weapon = Weapon(Distance.Inch(sight_in), twist)
    atmo = Atmo(altitude=Distance.Foot(altitude_ft), temperature=Temperature.Fahrenheit(59),
                pressure=Pressure.InHg(29.92), humidity=0.0) if altitude_ft is not None else Atmo.icao()
    shot = Shot(weapon=weapon, ammo=ammo, atmo=atmo, winds=winds,
                look_angle=Angular.Degree(look_deg), relative_angle=Angular.Degree(angle_deg))
    return shot


def run(label, config, shot, rng, step=0, extra=False, time_step=0.0):
    calc = Calculator(_config=config)
    try:
        res = calc.fire(shot, rng, step, extra_data=extra, time_step=time_step)
        rows = res.trajectory
        print(f"{label}: OK n={len(rows)} last=[{row_text(rows[-1])}] sha={digest(rows)}")
    except RangeError as e:
        rows = e.incomplete_trajectory
        ld = e.last_distance
        print(f"{label}: RangeError reason={e.reason!r} str={str(e)!r} args={e.args!r} n={len(rows)} "
              f"last_distance={fval(ld)} same_obj={ld is rows[-1].distance if rows else None} "
              f"last=[{row_text(rows[-1]) if rows else None}] sha={digest(rows)}")
    except Exception as e:  # any other exception must be identical as well
        print(f"{label}: {type(e).__name__}: {e}")


CONFIGS = {
    "default": None,
    "zero_height": InterfaceConfigDict(cMinimumVelocity=0, cMinimumAltitude=Distance.Meter(0),
                                       cMaximumDrop=Distance.Meter(0)),
    "minvel_1500": InterfaceConfigDict(cMinimumVelocity=1500.0),
    "minvel_int": InterfaceConfigDict(cMinimumVelocity=1200),
    # unit-typed limit: compared through AbstractDimension.__gt__/__lt__ (raw value, m/s)
    "minvel_unit": InterfaceConfigDict(cMinimumVelocity=Velocity.FPS(3000)),
    "drop_-10": InterfaceConfigDict(cMaximumDrop=-10.0, cMinimumVelocity=0),
    "alt_90": InterfaceConfigDict(cMinimumAltitude=90.0, cMinimumVelocity=0),
    "alt_and_drop_tie": InterfaceConfigDict(cMinimumAltitude=95.0, cMaximumDrop=-5.0, cMinimumVelocity=0),
    "all_three": InterfaceConfigDict(cMinimumVelocity=5000.0, cMaximumDrop=1000.0, cMinimumAltitude=100000.0),
    "drop_and_alt": InterfaceConfigDict(cMinimumVelocity=0.0, cMaximumDrop=1000.0, cMinimumAltitude=100000.0),
    "alt_only": InterfaceConfigDict(cMinimumVelocity=0.0, cMaximumDrop=-1e9, cMinimumAltitude=100000.0),
    "vel_nan": InterfaceConfigDict(cMinimumVelocity=math.nan, cMaximumDrop=-20.0),
    "coarse": InterfaceConfigDict(max_calc_step_size_feet=5.0, cMinimumVelocity=800.0),
}

CASES = [
    # label, config, shot kwargs, range, step, extra, time_step
    ("flat/default", "default", dict(), Distance.Yard(500), Distance.Yard(100), False, 0.0),
    ("flat/default/extra", "default", dict(), Distance.Yard(500), Distance.Yard(100), True, 0.0),
    ("flat/minvel_1500", "minvel_1500", dict(), Distance.Yard(1500), Distance.Yard(100), False, 0.0),
    ("flat/minvel_1500/extra", "minvel_1500", dict(), Distance.Yard(1500), Distance.Yard(100), True, 0.0),
    ("flat/minvel_int", "minvel_int", dict(), Distance.Yard(1500), 0, False, 0.0),
    ("flat/minvel_unit", "minvel_unit", dict(), Distance.Yard(2500), Distance.Yard(100), False, 0.0),
    ("flat/drop_-10", "drop_-10", dict(), Distance.Yard(2000), Distance.Yard(50), False, 0.0),
    ("flat/drop_-10/extra", "drop_-10", dict(), Distance.Yard(2000), Distance.Yard(50), True, 0.0),
    ("alt100/alt_90", "alt_90", dict(altitude_ft=100.0), Distance.Yard(2000), Distance.Yard(100), False, 0.0),
    ("alt100/alt_90/extra", "alt_90", dict(altitude_ft=100.0), Distance.Yard(2000), Distance.Yard(100), True, 0.0),
    ("alt100/tie", "alt_and_drop_tie", dict(altitude_ft=100.0, sight_in=0.0), Distance.Yard(2000),
     Distance.Yard(100), False, 0.0),
    ("flat/all_three", "all_three", dict(), Distance.Yard(300), Distance.Yard(100), False, 0.0),
    ("flat/drop_and_alt", "drop_and_alt", dict(), Distance.Yard(300), Distance.Yard(100), False, 0.0),
    ("flat/alt_only", "alt_only", dict(), Distance.Yard(300), Distance.Yard(100), True, 0.0),
    ("flat/vel_nan", "vel_nan", dict(), Distance.Yard(2500), Distance.Yard(250), False, 0.0),
    ("vertical/zero_height", "zero_height", dict(angle_deg=90.0, table=TableG1, bc=0.759), Distance.Meter(10), 0,
     False, 0.0),
    ("vertical/zero_height/extra", "zero_height", dict(angle_deg=90.0, table=TableG1, bc=0.759), Distance.Meter(10),
     0, True, 0.0),
    ("vertical/default/time_step", "default", dict(angle_deg=90.0, mv_fps=900.0), Distance.Yard(100),
     Distance.Yard(10), False, 0.5),
    ("downward/default", "default", dict(angle_deg=-60.0), Distance.Yard(3000), Distance.Yard(200), False, 0.0),
    ("downward/-90", "default", dict(angle_deg=-90.0, mv_fps=300.0), Distance.Yard(50), Distance.Yard(10), True, 0.0),
    ("slow/default", "default", dict(mv_fps=60.0, angle_deg=30.0), Distance.Yard(200), Distance.Yard(10), False, 0.0),
    ("slow40/default", "default", dict(mv_fps=40.0, angle_deg=10.0), Distance.Yard(200), Distance.Yard(10), False,
     0.0),
    ("zero_mv/default", "default", dict(mv_fps=0.0), Distance.Yard(100), Distance.Yard(10), False, 0.0),
    ("zero_mv/zero_height", "zero_height", dict(mv_fps=0.0), Distance.Yard(100), Distance.Yard(10), True, 0.0),
    ("lob45/zero_height", "zero_height", dict(angle_deg=45.0, table=TableG1, bc=0.3, mv_fps=1200.0),
     Distance.Meter(8000), 0, False, 0.0),
    ("lob45/zero_height/extra", "zero_height", dict(angle_deg=45.0, table=TableG1, bc=0.3, mv_fps=1200.0),
     Distance.Meter(8000), 0, True, 0.0),
    ("wind/coarse", "coarse", dict(winds=[Wind(Velocity.MPH(15), Angular.OClock(3), Distance.Yard(300)),
                                          Wind(Velocity.MPH(5), Angular.OClock(9), Distance.Yard(900))],
                                   look_deg=3.0), Distance.Yard(2500), Distance.Yard(100), True, 0.0),
    ("high_station/default", "default", dict(altitude_ft=9000.0, angle_deg=2.0), Distance.Yard(1000),
     Distance.Yard(100), False, 0.0),
    ("below_min_alt/default", "default", dict(altitude_ft=-1500.0), Distance.Yard(300), Distance.Yard(100), False,
     0.0),
    ("range0/default", "default", dict(), Distance.Yard(0), Distance.Yard(1), False, 0.0),
    # loop body never runs (negative range): only the "at least two points" filler row(s)
    ("range_neg/default", "default", dict(), Distance.Yard(-10), Distance.Yard(1), False, 0.0),
    ("range_neg/all_three", "all_three", dict(), Distance.Yard(-10), Distance.Yard(1), True, 0.0),
    # limit violated within the first steps, just short of a very small requested range
    ("short/minvel_1500", "minvel_1500", dict(mv_fps=1500.2), Distance.Foot(1), Distance.Foot(1), False, 0.0),
    ("short/minvel_1500/extra", "minvel_1500", dict(mv_fps=1500.2), Distance.Foot(1), Distance.Foot(1), True, 0.0),
    ("head_wind/default", "default", dict(mv_fps=70.0, angle_deg=20.0,
                                          winds=[Wind(Velocity.MPH(60), Angular.OClock(12), Distance.Yard(1000))]),
     Distance.Yard(300), Distance.Yard(5), True, 0.0),
]

for label, cfg, kw, rng, step, extra, ts in CASES:
    run(label, CONFIGS[cfg], make_shot(**kw), rng, step, extra, ts)

# RangeError constructed directly (public API): empty / non-empty / tuple
for rows in ([], ()):
    e = RangeError(RangeError.MaximumDropReached, rows)
    print("direct-empty", type(rows).__name__, repr(e.reason), repr(str(e)), e.last_distance,
          e.incomplete_trajectory is rows, e.args)
try:
    Calculator(_config=CONFIGS['minvel_1500']).fire(make_shot(), Distance.Yard(3000), Distance.Yard(100))
    print('direct: no RangeError?')
except RangeError as e0:
    rows = e0.incomplete_trajectory
    for reason in (RangeError.MinimumVelocityReached, RangeError.MinimumAltitudeReached, "custom reason"):
        e = RangeError(reason, rows[:2])
        print("direct", repr(e.reason), repr(str(e)), fval(e.last_distance), e.last_distance is rows[1].distance,
              len(e.incomplete_trajectory))
    e = RangeError(RangeError.MaximumDropReached, tuple(rows))
    print("direct-tuple", repr(str(e)), fval(e.last_distance), type(e.incomplete_trajectory).__name__)

# zero finding uses the same integration loop
calc = Calculator()
shot = make_shot()
print("zero", repr(calc.set_weapon_zero(shot, Distance.Yard(100)).raw_value))
run("zeroed/default", None, shot, Distance.Yard(1000), Distance.Yard(100), True, 0.0)

# RangeError raised from inside the zero-finding iteration (same loop, filter_flags == NONE -> no recorded rows)
for cfgname, dist in (("minvel_1500", Distance.Yard(1500)), ("drop_-10", Distance.Yard(1500)),
                      ("zero_height", Distance.Yard(300))):
    calc = Calculator(_config=CONFIGS[cfgname])
    shot = make_shot()
    try:
        print("zero/" + cfgname, repr(calc.set_weapon_zero(shot, dist).raw_value))
    except RangeError as e:
        rows = e.incomplete_trajectory
        print("zero/" + cfgname, "RangeError", repr(e.reason), repr(str(e)), len(rows), fval(e.last_distance),
              digest(rows))
    except Exception as e:
        print("zero/" + cfgname, type(e).__name__, e)

# same calculator object reused after a RangeError (call history)
calc = Calculator(_config=CONFIGS["minvel_1500"])
for rng in (Distance.Yard(1500), Distance.Yard(300), Distance.Yard(1500)):
    try:
        res = calc.fire(make_shot(), rng, Distance.Yard(100))
        print("reuse", fval(rng), "OK", len(res.trajectory), digest(res.trajectory))
    except RangeError as e:
        print("reuse", fval(rng), repr(e.reason), len(e.incomplete_trajectory), digest(e.incomplete_trajectory))
