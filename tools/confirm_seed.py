#!/venv/bin/python
"""Confirm one seeded change independently of the agent that wrote it.

usage: confirm_seed.py <seed-dir> [--skip-tests]
  <seed-dir> holds patch.diff and demo.py.  Uses a private scratch worktree of /repo (removed afterwards):
  1. patch applies to /repo's HEAD           2. the pinned test-suite passes with it (108 passed)
  3. demo.py exits 1 with the patch           4. demo.py exits 0 without it
  5. all 20 quick checks are run against the patched worktree; which fire is recorded
Writes <seed-dir>/confirm.json and prints a one-line summary.
"""
import json
import os
import re
import subprocess
import sys
import tempfile
from concurrent.futures import ThreadPoolExecutor

VERIF = os.path.dirname(os.path.dirname(os.path.abspath(__file__)))


def sh(*a, **k):
    return subprocess.run(a, capture_output=True, text=True, **k)


def main():
    d = os.path.abspath(sys.argv[1])
    skip_tests = '--skip-tests' in sys.argv
    patch, demo = os.path.join(d, 'patch.diff'), os.path.join(d, 'demo.py')
    res = {'seed': d}
    if not (os.path.exists(patch) and os.path.exists(demo)):
        print(f'{d}: patch.diff or demo.py missing')
        return 2
    wt = tempfile.mkdtemp(prefix='confirm.', dir='/tmp/wt')
    os.rmdir(wt)
    head = sh('git', '-C', '/repo', 'rev-parse', 'HEAD').stdout.strip()
    r = sh('git', '-C', '/repo', 'worktree', 'add', '-q', '--detach', wt, head)
    if r.returncode:
        print(r.stderr)
        return 2
    try:
        env = dict(os.environ, PYTHONPATH=wt, PYTHONDONTWRITEBYTECODE='1')
        # demo without the patch
        r0 = sh('/venv/bin/python', demo, cwd=wt, env=env, timeout=900)
        res['demo_clean_exit'] = r0.returncode
        a = sh('git', '-C', wt, 'apply', patch)
        res['applies'] = a.returncode == 0
        if a.returncode:
            res['apply_error'] = a.stderr.strip()[:300]
            print(f'{d}: PATCH DOES NOT APPLY {a.stderr.strip()[:200]}')
            json.dump(res, open(os.path.join(d, 'confirm.json'), 'w'), indent=1)
            return 1
        res['files'] = sh('git', '-C', wt, 'diff', '--stat').stdout.strip().splitlines()[:-1]
        r1 = sh('/venv/bin/python', demo, cwd=wt, env=env, timeout=900)
        res['demo_patched_exit'] = r1.returncode
        res['demo_patched_tail'] = (r1.stdout + r1.stderr)[-600:]
        if not skip_tests:
            t = sh('/venv/bin/python', '-m', 'pytest', 'tests', '-q', '-p', 'no:cacheprovider', '--timeout=900', cwd=wt,
                   env=dict(os.environ, PYTHONDONTWRITEBYTECODE='1'))
            m = re.search(r'(\d+) passed', t.stdout)
            f = re.search(r'(\d+) failed', t.stdout)
            res['tests_passed'] = int(m.group(1)) if m else 0
            res['tests_failed'] = int(f.group(1)) if f else 0
        ids = [f'C{n:02d}' for n in range(1, 21)]

        def run(pid):
            r = sh('/venv/bin/python', '-m', 'sa.check', pid, '--tier', 'quick', '--repo', wt, '--no-write', cwd=VERIF)
            lines = [l.strip()[:400] for l in r.stdout.splitlines()
                     if l.startswith('VIOLATION') or l.startswith('ANALYSIS-ERROR') or l.startswith('  py_')]
            return pid, r.returncode, lines
        with ThreadPoolExecutor(8) as ex:
            out = list(ex.map(run, ids))
        res['fired'] = [p for p, c, _l in out if c == 1]
        res['analysis_errors'] = [p for p, c, _l in out if c == 2]
        res['reports'] = {p: [x for x in l if x.startswith('py_')][:4] for p, c, l in out if c != 0}
        json.dump(res, open(os.path.join(d, 'confirm.json'), 'w'), indent=1)
        ok = res.get('demo_clean_exit') == 0 and res.get('demo_patched_exit') == 1 and \
            (skip_tests or (res.get('tests_passed') == 108 and not res.get('tests_failed')))
        print(f"{d}: valid={ok} clean={res.get('demo_clean_exit')} patched={res.get('demo_patched_exit')} "
              f"tests={res.get('tests_passed')}/{res.get('tests_failed')} FIRED={res['fired']} ERR={res['analysis_errors']}")
        return 0
    finally:
        sh('git', '-C', '/repo', 'worktree', 'remove', '--force', wt)


if __name__ == '__main__':
    sys.exit(main())
