#!/venv/bin/python
"""Apply every patch.diff under a directory tree to the current /repo sources IN MEMORY and run all 20 quick analyses.

usage: eval_seeds_mem.py <root> [--jobs N]      (root holds <id>/<k>/patch.diff)
Prints, per change, the checks that report a violation (with the first message), those that end in an analysis error,
and the undecided ones.  Nothing is written; /repo is not touched."""
import glob
import multiprocessing
import os
import sys

VERIF = os.path.dirname(os.path.dirname(os.path.abspath(__file__)))
sys.path.insert(0, VERIF)
from sa.check import PatchVariant, analyse                 # noqa: E402
from sa.loader import AnalysisError, SourceSet              # noqa: E402
from sa.report import load_known                            # noqa: E402

IDS = [f'C{n:02d}' for n in range(1, 21)]
_BASE = None
_SS_CACHE = {}


def work(args):
    global _BASE
    patch, pid = args
    if _BASE is None:
        _BASE = SourceSet.load('/repo')
    known = {k['key'] for k in load_known().get('findings', [])}
    if patch not in _SS_CACHE:
        _SS_CACHE.clear()
        _SS_CACHE[patch] = PatchVariant('x', patch, None).build(_BASE)
    ss = _SS_CACHE[patch]
    if ss is None:
        return patch, pid, 'noapply', ''
    try:
        rep = analyse(pid, ss, 'quick')
    except AnalysisError as exc:
        return patch, pid, 'error', str(exc)[:200]
    except Exception as exc:      # pylint: disable=broad-except
        return patch, pid, 'crash', f'{type(exc).__name__}: {exc}'[:200]
    new = [f for f in rep.findings if f.key not in known]
    if new:
        return patch, pid, 'fired', f'{new[0].rule} {new[0].message[:220]}'
    if rep.floor_errors():
        return patch, pid, 'error', rep.floor_errors()[0][:200]
    und = sum(r.undecided for r in rep.rules.values())
    return patch, pid, ('undecided' if und else 'silent'), ''


def main():
    root = sys.argv[1]
    jobs = int(sys.argv[sys.argv.index('--jobs') + 1]) if '--jobs' in sys.argv else 14
    patches = sorted(glob.glob(os.path.join(root, '*', '*', 'patch.diff')))
    only = sys.argv[sys.argv.index('--only') + 1].split(',') if '--only' in sys.argv else IDS
    tasks = [(p, pid) for p in patches for pid in IDS if pid in only]
    with multiprocessing.Pool(jobs) as pool:
        res = pool.map(work, tasks, chunksize=20)
    by = {}
    for patch, pid, status, msg in res:
        by.setdefault(patch, []).append((pid, status, msg))
    for patch in patches:
        name = os.path.relpath(os.path.dirname(patch), root)
        own = name.split(os.sep)[0]
        rows = by[patch]
        fired = [p for p, s, _m in rows if s == 'fired']
        err = [p for p, s, _m in rows if s in ('error', 'crash')]
        und = [p for p, s, _m in rows if s == 'undecided']
        na = [p for p, s, _m in rows if s == 'noapply']
        tag = 'OWN' if own in fired else ('sibling' if fired else ('ERR-only' if err else 'MISSED'))
        print(f'== {name} [{tag}] fired={fired} err={err} undecided={und}' + (' PATCH DOES NOT APPLY' if na else ''))
        for p, s, m in rows:
            if s in ('fired', 'error', 'crash'):
                print(f'     {p} {s}: {m}')


if __name__ == '__main__':
    main()
