#!/venv/bin/python
"""Confirm one behaviour-preserving refactoring independently of the agent that wrote it.

usage: confirm_twin.py <dir>      (<dir> holds patch.diff and equiv.py)
In a private scratch worktree of /repo (removed afterwards): equiv.py output on the clean tree, patch applies, equiv.py
output with the patch is byte-identical, the pinned test-suite passes with the patch (108 passed).  Writes
<dir>/confirm.json and prints one line."""
import hashlib
import json
import os
import re
import subprocess
import sys
import tempfile


def sh(*a, **k):
    return subprocess.run(a, capture_output=True, text=True, **k)


def main():
    d = os.path.abspath(sys.argv[1])
    patch, equiv = os.path.join(d, 'patch.diff'), os.path.join(d, 'equiv.py')
    if not (os.path.exists(patch) and os.path.exists(equiv)):
        print(f'{d}: patch.diff or equiv.py missing')
        return 2
    os.makedirs('/tmp/wt', exist_ok=True)
    wt = tempfile.mkdtemp(prefix='ctwin.', dir='/tmp/wt')
    os.rmdir(wt)
    head = sh('git', '-C', '/repo', 'rev-parse', 'HEAD').stdout.strip()
    sh('git', '-C', '/repo', 'worktree', 'add', '-q', '--detach', wt, head)
    res = {'twin': d}
    try:
        env = dict(os.environ, PYTHONPATH=wt, PYTHONDONTWRITEBYTECODE='1', PYTHONHASHSEED='0')
        r0 = sh('/venv/bin/python', equiv, cwd=wt, env=env, timeout=900)
        a = sh('git', '-C', wt, 'apply', patch)
        res['applies'] = a.returncode == 0
        if a.returncode:
            print(f'{d}: PATCH DOES NOT APPLY')
            json.dump(res, open(os.path.join(d, 'confirm.json'), 'w'), indent=1)
            return 1
        res['files'] = sh('git', '-C', wt, 'diff', '--stat').stdout.strip().splitlines()[:-1]
        r1 = sh('/venv/bin/python', equiv, cwd=wt, env=env, timeout=900)
        res['equiv_clean_exit'], res['equiv_patched_exit'] = r0.returncode, r1.returncode
        res['equiv_clean_sha256'] = hashlib.sha256(r0.stdout.encode()).hexdigest()
        res['equiv_patched_sha256'] = hashlib.sha256(r1.stdout.encode()).hexdigest()
        res['equiv_lines'] = len(r0.stdout.splitlines())
        t = sh('/venv/bin/python', '-m', 'pytest', 'tests', '-q', '-p', 'no:cacheprovider', '--timeout=900', cwd=wt,
               env=dict(os.environ, PYTHONDONTWRITEBYTECODE='1'))
        m = re.search(r'(\d+) passed', t.stdout)
        f = re.search(r'(\d+) failed', t.stdout)
        res['tests_passed'] = int(m.group(1)) if m else 0
        res['tests_failed'] = int(f.group(1)) if f else 0
        ok = res['equiv_clean_sha256'] == res['equiv_patched_sha256'] and res['equiv_lines'] > 0 and \
            r0.returncode == r1.returncode and res['tests_passed'] == 108 and not res['tests_failed']
        res['valid'] = ok
        json.dump(res, open(os.path.join(d, 'confirm.json'), 'w'), indent=1)
        print(f"{d}: valid={ok} equiv_same={res['equiv_clean_sha256'] == res['equiv_patched_sha256']} lines={res['equiv_lines']} "
              f"tests={res['tests_passed']}/{res['tests_failed']}")
        return 0 if ok else 1
    finally:
        sh('git', '-C', '/repo', 'worktree', 'remove', '--force', wt)


if __name__ == '__main__':
    sys.exit(main())
