#!/venv/bin/python
"""Apply a seeded patch to a scratch worktree of /repo and run all quick checks against it.

usage: eval_seed.py <patch.diff> [--keep]      (never touches /repo's working tree)
Prints one line per check that does not exit 0, and the list of checks that stayed silent.
"""
import json
import os
import subprocess
import sys
from concurrent.futures import ThreadPoolExecutor

VERIF = os.path.dirname(os.path.dirname(os.path.abspath(__file__)))
WT = '/tmp/wt/eval'


def sh(*a, **k):
    return subprocess.run(a, capture_output=True, text=True, **k)


def main():
    patch = os.path.abspath(sys.argv[1])
    if not os.path.isdir(WT):
        r = sh('git', '-C', '/repo', 'worktree', 'add', '-q', '--detach', WT, 'HEAD')
        if r.returncode:
            print(r.stderr)
            return 2
    sh('git', '-C', WT, 'checkout', '-q', '--detach', sh('git', '-C', '/repo', 'rev-parse', 'HEAD').stdout.strip())
    sh('git', '-C', WT, 'checkout', '--', '.')
    sh('git', '-C', WT, 'clean', '-fdq')
    r = sh('git', '-C', WT, 'apply', patch)
    if r.returncode:
        print('PATCH DOES NOT APPLY:', r.stderr.strip())
        return 2
    ids = [f'C{n:02d}' for n in range(1, 21)]

    def run(pid):
        r = sh('/venv/bin/python', '-m', 'sa.check', pid, '--tier', 'quick', '--repo', WT, '--no-write', cwd=VERIF)
        return pid, r.returncode, r.stdout
    with ThreadPoolExecutor(16) as ex:
        results = list(ex.map(run, ids))
    fired, errors, silent = [], [], []
    for pid, code, out in results:
        if code == 0:
            silent.append(pid)
            continue
        lines = [l for l in out.splitlines() if l.startswith('VIOLATION') or l.startswith('ANALYSIS-ERROR') or l.startswith('  py_')]
        (fired if code == 1 else errors).append(pid)
        print(f'--- {pid} exit {code}')
        for l in lines[:6]:
            print('   ', l[:330])
    print('FIRED:', fired, ' ERRORS:', errors)
    print('SILENT:', len(silent))
    if '--keep' not in sys.argv:
        sh('git', '-C', WT, 'checkout', '--', '.')
    return 0


if __name__ == '__main__':
    sys.exit(main())
