#!/bin/bash
# Run the repository's pinned test-suite on a scratch copy of /repo's working tree (or of a git ref).
# usage: suite_on_copy.sh [git-ref]     prints the pytest summary line; removes the copy afterwards
set -e
ref="$1"
d=$(mktemp -d /tmp/suite.XXXXXX)
if [ -n "$ref" ]; then
  git -C /repo archive "$ref" | tar -x -C "$d"
else
  rsync -a --exclude .git --exclude __pycache__ /repo/ "$d"/
fi
cd "$d"
/venv/bin/python -m pytest tests -q -p no:cacheprovider --timeout=900 2>&1 | tail -4
cd /
rm -rf "$d"
