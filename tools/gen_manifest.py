#!/venv/bin/python
"""Regenerate /verif/MANIFEST.json from the rule modules under sa/props (one source of truth)."""
import importlib
import json
import os
import sys

VERIF = os.path.dirname(os.path.dirname(os.path.abspath(__file__)))
sys.path.insert(0, VERIF)

props = [json.loads(l) for l in open(os.path.join(VERIF, 'properties.jsonl'))]
checks, na = [], []
for p in props:
    pid = p['id']
    try:
        mod = importlib.import_module(f'sa.props.{pid.lower()}')
    except ModuleNotFoundError:
        na.append({'property_id': pid, 'reason': 'check not built yet in this session (static rules planned in DESIGN.md section 5)'})
        continue
    if getattr(mod, 'NOT_APPLICABLE', None):
        na.append({'property_id': pid, 'reason': mod.NOT_APPLICABLE})
        continue
    from sa.props.imports import decided_lines
    decided = '; '.join(list(mod.DECIDED) + decided_lines(pid))
    undecided = '; '.join(mod.NOT_DECIDED)
    checks.append({
        'property_id': pid,
        'quick_cmd': f'/venv/bin/python -m sa.check {pid} --tier quick',
        'thorough_cmd': f'/venv/bin/python -m sa.check {pid} --tier thorough',
        'evidence_file': f'/verif/evidence/{pid}.json',
        'replay_cmd_template': f'/venv/bin/python -m sa.check {pid} --replay {{path}}',
        'engine': 'sa',
        'level_claimed': {
            'category': 'other',
            'text': ('Static analysis at clause level: decides, for every input at once, the clauses of the property whose '
                     'truth is fixed by the shape of the code, and says which clauses it does not decide. DECIDED: '
                     + decided + '. NOT DECIDED (runtime quantities, no sound static argument in reach): ' + undecided
                     + '. The thorough tier adds the rule self-test (breaking variants of the current tree must fire, '
                       'benign twins must stay silent) and whole-package sweeps.'),
            'design_ref': f'DESIGN.md section 5, {pid}',
        },
        'level_note': getattr(mod, 'LEVEL_NOTE', 'Trusted: CPython ast, the rule implementations in /verif/sa, the oracle '
                              'tables in /verif/sa/spec. Pure-Python backend only (the optional Cython backend is not '
                              'analysed). A clause listed as not decided is not claimed.'),
        'technique': getattr(mod, 'TECHNIQUE', 'repository-specific static analysis over the ast'),
    })

manifest = {
    'version': 1,
    'setup_cmd': '/venv/bin/python -m compileall -q sa tools',
    'hooks': {
        'guard': 'PY_BALLISTICCALC_VERIF',
        'enable': 'none needed: static analysis reads /repo sources, no instrumentation exists; the variable is unused',
        'baseline_off_cmd': 'cd /repo && /venv/bin/python -m pytest -ra -q -p no:cacheprovider --timeout=900 '
                            '--continue-on-collection-errors',
        'source_commits': [],
        'add_only': True,
    },
    'engines': [
        {'name': 'sa', 'path': '/verif/sa', 'serves_properties': [c['property_id'] for c in checks],
         'kind_free_text': 'stdlib-only static analysis (ast): resolver, statement CFG + dataflow + typestate, '
                           'effect/origin analysis, exact algebraic normal forms with an abstract evaluator, '
                           'literal-table folding against oracle tables'},
    ],
    'checks': checks,
    'not_applicable': na,
    'notes': 'All checks: cd /verif && /venv/bin/python -m sa.check <ID> --tier quick|thorough. exit 0 held / exit 1 '
             'VIOLATION / exit 2 ANALYSIS-ERROR (anchor vanished or rule below its instance floor). Known findings: '
             '/verif/known_findings.json. fix: commits in /repo are listed there as fixed entries.',
}
with open(os.path.join(VERIF, 'MANIFEST.json'), 'w') as fh:
    json.dump(manifest, fh, indent=1)
print(f'{len(checks)} checks, {len(na)} not applicable')
